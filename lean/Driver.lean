import Lean.Data.Json
import Convergen.Model.Parse
import Convergen.Model.Runner
/-!
# JSON-lines driver: runs the executable model on facts sent by the Go harness.
One JSON object per input line, one per output line.  Core Lean only (links as `lean_exe`).
-/
open Lean Convergen

def getArr (j : Json) (k : String) : Except String (Array Json) := do
  match j.getObjVal? k with
  | .ok (.arr a) => pure a
  | .ok .null => pure #[]
  | .ok _ => throw s!"field {k}: expected array"
  | .error _ => pure #[]

def getStr (j : Json) (k : String) : Except String String := do
  match j.getObjVal? k with
  | .ok (.str s) => pure s
  | .ok .null => pure ""
  | .ok _ => throw s!"field {k}: expected string"
  | .error _ => pure ""

def getNat (j : Json) (k : String) : Except String Nat := do
  match j.getObjVal? k with
  | .ok v => match v.getNat? with
    | .ok n => pure n
    | .error _ => throw s!"field {k}: expected nat"
  | .error _ => pure 0

def getBool (j : Json) (k : String) : Except String Bool := do
  match j.getObjVal? k with
  | .ok (.bool b) => pure b
  | .ok _ => throw s!"field {k}: expected bool"
  | .error _ => pure false

def getOptStr (j : Json) (k : String) : Except String (Option String) := do
  match j.getObjVal? k with
  | .ok (.str s) => pure (some s)
  | _ => pure none

def natList (j : Json) (k : String) : Except String (List Nat) := do
  let a ← getArr j k
  a.toList.mapM fun v => match v.getNat? with
    | .ok n => pure n
    | .error _ => throw s!"field {k}: expected nat list"

def parseMethodInfo (j : Json) : Except String MethodInfo := do
  let flag := fun (k : String) => match j.getObjVal? k with
    | .ok (.bool b) => b
    | _ => false
  pure { name := ← getStr j "name", nparams := ← getNat j "nparams", results := ← natList j "results",
         ptrRecv := flag "ptrRecv", needsAddr := flag "needsAddr", foreign := flag "foreign" }

def parseLookup (j : Json) : Except String Lookup := do
  match ← getStr j "k" with
  | "field" => pure (.field (← getStr j "name") (← getNat j "ty"))
  | "method" => pure (.method (← parseMethodInfo j))
  | _ => pure .none

def parseKind (s : String) : Kind :=
  match s with
  | "basic" => .basic | "named" => .named | "pointer" => .pointer | "slice" => .slice
  | "struct" => .struct | _ => .other

def parseTy (j : Json) : Except String TyInfo := do
  let fields ← (← getArr j "fields").toList.mapM fun f => do
    pure ({ name := ← getStr f "name", ty := ← getNat f "ty", foreign := ← getBool f "foreign" } : Field)
  let methods ← (← getArr j "methods").toList.mapM parseMethodInfo
  let sl ← match j.getObjVal? "stringLookup" with
    | .ok v => parseLookup v
    | .error _ => pure .none
  pure { kind := parseKind (← getStr j "kind"), str := ← getStr j "str", qstr := ← getStr j "qstr", name := ← getStr j "name",
         pkgPath := ← getOptStr j "pkgPath", pkgName := ← getStr j "pkgName",
         inScope := (match j.getObjVal? "inScope" with | .ok (.bool b) => b | _ => false),
         hasTypeArgs := (match j.getObjVal? "hasTypeArgs" with | .ok (.bool b) => b | _ => false), elem := ← getNat j "elem",
         isStruct := ← getBool j "isStruct", isInvalid := ← getBool j "isInvalid", isSlice := ← getBool j "isSlice",
         underStr := ← getStr j "underStr", fields := fields, methods := methods, stringLookup := sl }

def parseFuncLookup (j : Json) : Except String FuncLookup := do
  match ← getStr j "k" with
  | "notFunc" => pure .notFunc
  | "func" => pure (.func { name := ← getStr j "name", pkgPath := ← getStr j "pkgPath",
                            exported := ← getBool j "exported", params := ← natList j "params",
                            results := ← natList j "results", variadic := ← getBool j "variadic" })
  | _ => pure .notFound

def parseComment (j : Json) : Except String Comment := do
  pure { pos := ← getStr j "pos", text := ← getStr j "text", off := ← getNat j "off" }

def parseParamVar (j : Json) : Except String ParamVar := do
  pure { name := ← getStr j "name", ty := ← getNat j "ty", pos := ← getStr j "pos" }

def parseMethodDecl (j : Json) : Except String MethodDecl := do
  pure { name := ← getStr j "name", pos := ← getStr j "pos",
         params := ← (← getArr j "params").toList.mapM parseParamVar,
         results := ← (← getArr j "results").toList.mapM parseParamVar,
         docChain := ← natList j "docChain" }

def parseScopeObj (j : Json) : Except String ScopeObj := do
  pure { name := ← getStr j "name", pos := ← getStr j "pos", isInterface := ← getBool j "isInterface",
         isType := (j.getObjValAs? Bool "isTypeName").toOption.getD true,
         inSetupFile := ← getBool j "inSetupFile", docChain := ← natList j "docChain",
         methods := ← (← getArr j "methods").toList.mapM parseMethodDecl,
         lbrace := ← getNat j "lbrace", rbrace := ← getNat j "rbrace" }

def parseFile (j : Json) : Except String FileFacts := do
  let groups ← (← getArr j "groups").toList.mapM fun g => do
    match g with
    | .arr a => a.toList.mapM parseComment
    | _ => throw "group: expected array"
  let docOf ← (← getArr j "docOf").toList.mapM fun v => do
    match v.getNat? with
    | .ok n => pure (some n)
    | .error _ => pure none
  pure { packagePos := ← getStr j "packagePos", groups := groups, docOf := docOf,
         scope := ← (← getArr j "scope").toList.mapM parseScopeObj }

def bitRow (s : String) : Array Bool := (s.toList.map (· == '1')).toArray

structure OracleMiss where
  misses : IO.Ref (List String)

def parseFacts (j : Json) : Except String Facts := do
  let tys ← (← getArr j "types").mapM parseTy
  let assignable ← (← getArr j "assignable").mapM fun v => match v with
    | .str s => pure (bitRow s) | _ => throw "assignable: expected strings"
  let convertible ← (← getArr j "convertible").mapM fun v => match v with
    | .str s => pure (bitRow s) | _ => throw "convertible: expected strings"
  let identical ← (← getArr j "identical").mapM fun v => match v with
    | .str s => pure (bitRow s) | _ => throw "identical: expected strings"
  let lookups ← (← getArr j "lookups").toList.mapM fun l => do
    pure ((← getNat l "ty", ← getStr l "name"), ← parseLookup (← (l.getObjVal? "res")))
  let scopeNames ← (← getArr j "scopeNames").toList.mapM fun v => match v with
    | .str s => pure s | _ => throw "scopeNames: expected strings"
  let imports ← (← getArr j "imports").toList.mapM fun i => do
    pure ({ path := ← getStr i "path", alias := ← getStr i "alias",
            pkgName := match i.getObjVal? "pkgName" with | .ok (.str n) => n | _ => "" } : ImportSpec)
  let localFuncs ← (← getArr j "localFuncs").toList.mapM fun l => do
    pure (← getStr l "name", ← parseFuncLookup (← (l.getObjVal? "res")))
  let pkgImports ← (← getArr j "pkgImports").toList.mapM fun v => match v with
    | .str s => pure s | _ => throw "pkgImports: expected strings"
  let importedFuncs ← (← getArr j "importedFuncs").toList.mapM fun l => do
    pure ((← getStr l "path", ← getStr l "name"), ← parseFuncLookup (← (l.getObjVal? "res")))
  let regex ← (← getArr j "regex").toList.mapM fun r => do
    pure ((← getStr r "expr", ← getStr r "subject"), (← getBool r "compiles", ← getBool r "match"))
  let env : Env := {
    tys := tys
    assignable := fun a b => (assignable.getD a #[]).getD b false
    convertible := fun a b => (convertible.getD a #[]).getD b false
    identical := fun a b => (identical.getD a #[]).getD b false
    lookup := fun t n => ((lookups.find? (fun e => e.1 == (t, n))).map (·.2)).getD .none
    pkgScope := fun n => scopeNames.contains n
    pkgPath := ← getStr j "pkgPath"
    imports := importNamesOf imports
    stringTy := ← getNat j "stringTy" }
  let scope : Scope := {
    localLookup := fun n => ((localFuncs.find? (·.1 == n)).map (·.2)).getD .notFound
    pkgImported := fun p => pkgImports.contains p
    importedLookup := fun p n => ((importedFuncs.find? (·.1 == (p, n))).map (·.2)).getD .notFound }
  let eng : Engine := {
    compiles := fun e => match regex.find? (fun r => r.1.1 == e) with
      | some r => r.2.1
      | none => true
    search := fun e s => match regex.find? (fun r => r.1 == (e, s)) with
      | some r => r.2.2
      | none => false }
  pure { env := env, scope := scope, eng := eng, file := ← parseFile (← (j.getObjVal? "file")) }

def strArr (l : List String) : Json := Json.arr (l.map Json.str).toArray

def frontToJson (f : Facts) (r : FrontResult) : Json :=
  Json.mkObj [
    ("distinctFields", Json.bool f.env.distinctFieldsCheck),
    ("methodsApart", Json.bool f.file.methodsApart),
    ("status", r.status), ("panicSite", r.panicSite),
    ("stderr", strArr r.stderr), ("stdout", strArr r.stdout),
    ("blocks", Json.arr (r.blocks.map fun (n, fs) =>
      Json.mkObj [("intf", n), ("funcs", Json.arr (fs.map fun (fname, text) =>
        Json.mkObj [("name", fname), ("text", text)]).toArray)]).toArray),
    ("metas", Json.arr (r.metas.map fun (n, a, rc, rv, e, sp) =>
      Json.mkObj [("name", n), ("argStyle", a), ("receiver", rc), ("reverse", rv), ("retError", e), ("srcPtr", sp)]).toArray),
    ("groups", Json.arr (r.groups.map fun g => Json.arr (g.map fun c =>
      Json.mkObj [("pos", c.pos), ("text", c.text)]).toArray).toArray),
    ("planted", Json.arr (r.planted.map fun g => Json.mkObj [("pos", g.pos), ("end", g.endp), ("empty", g.empty),
      ("markers", Json.arr (g.markers.map fun (m : Nat) => (m : Json)).toArray)]).toArray),
    ("markersSane", Json.bool (r.planted.all fun g => g.markers.length ≤ 1 && (g.markers.isEmpty || g.endp == g.pos + markerLen)))]

def outcomeBoolJson : Outcome Bool → Json
  | .ok b => Json.str (if b then "true" else "false")
  | .error _ => Json.str "error"
  | .panic _ => Json.str "panic"

def parseEngine (j : Json) : Except String Engine := do
  let regex ← (← getArr j "regex").toList.mapM fun r => do
    pure ((← getStr r "expr", ← getStr r "subject"), (← getBool r "compiles", ← getBool r "match"))
  pure { compiles := fun e => match regex.find? (fun r => r.1.1 == e) with
           | some r => r.2.1
           | none => false
         search := fun e s => match regex.find? (fun r => r.1 == (e, s)) with
           | some r => r.2.2
           | none => false }

/-- `{"op":"pm","pattern":p,"case":c,"queries":[{"ident":..,"case":..}],"regex":[..]}` -/
def handlePM (j : Json) : Except String Json := do
  let eng ← parseEngine j
  let pattern ← getStr j "pattern"
  let c ← getBool j "case"
  let qs ← (← getArr j "queries").toList.mapM fun q => do pure (← getStr q "ident", ← getBool q "case")
  match PM.new eng pattern c with
  | none => pure (Json.mkObj [("new", "error"), ("answers", Json.arr #[]),
      ("exprs", strArr [compileExpr pattern true, compileExpr pattern false])])
  | some m =>
    pure (Json.mkObj [("new", "ok"), ("answers", Json.arr ((runQueries eng m qs).map outcomeBoolJson).toArray),
      ("exprs", strArr [compileExpr pattern true, compileExpr pattern false]),
      ("subjects", strArr (qs.map fun q => matchSubject q.1 q.2))])

/-- `{"op":"ident","pattern":p,"queries":[{"ident":..,"case":..}]}`: IdentMatcher.Match / CompareFieldName -/
def handleIdent (j : Json) : Except String Json := do
  let pattern ← getStr j "pattern"
  let qs ← (← getArr j "queries").toList.mapM fun q => do pure (← getStr q "ident", ← getBool q "case")
  pure (Json.mkObj [
    ("answers", Json.arr ((qs.map fun q => Json.bool (identMatch pattern q.1 q.2)).toArray)),
    ("paths", strArr (identPaths pattern)),
    ("names", strArr ((identPaths pattern).map nameAt)),
    ("getters", Json.arr (((identPaths pattern).map fun s => Json.bool (forGetter s)).toArray))])

def strList (j : Json) (k : String) : Except String (List String) := do
  (← getArr j k).toList.mapM fun v => match v with
    | .str s => pure s
    | _ => throw s!"field {k}: expected strings"

/-- `{"op":"run","argv":[..],"gofile":"","files":[..],"dirs":[..],"core":{"kind","bytes","stderr"}}` -/
def handleRun (j : Json) : Except String Json := do
  let argv ← strList j "argv"
  let gofile ← getStr j "gofile"
  let files ← strList j "files"
  let dirs ← strList j "dirs"
  let cj ← j.getObjVal? "core"
  let kind ← getStr cj "kind"
  let bytes ← getStr cj "bytes"
  let cerr ← strList cj "stderr"
  match parseArgs argv gofile with
  | .usage => pure (Json.mkObj [("args", "usage"), ("exit", (1 : Nat))])
  | .flagError => pure (Json.mkObj [("args", "flagError"), ("exit", (2 : Nat))])
  | .config cfg =>
    let w : World := { files := fun p => if files.contains p then some "<before>" else none,
                       dirs := fun d => dirs.contains d }
    let core : World → Config → CoreResult := fun _ _ =>
      match kind with
      | "ok" => .ok bytes cerr []
      | "panic" => .panic cerr []
      | "formatError" => .formatError bytes cerr []
      | _ => .error cerr []
    let stdoutOk := !((j.getObjValAs? Bool "stdoutFull").toOption.getD false)
    let r := runWithStdout stdoutOk cfg core w
    let writes := ([cfg.output, cfg.log].filter (· != "")).filter fun p => r.world.get p != w.get p
    pure (Json.mkObj [("args", "config"), ("input", cfg.input), ("output", cfg.output), ("log", cfg.log),
      ("exit", r.exit), ("stdout", strArr r.stdout), ("writes", strArr writes),
      ("dirOfs", strArr [World.dirOf cfg.output, World.dirOf cfg.log])])

def handle (line : String) : String :=
  match Json.parse line with
  | .error e => (Json.mkObj [("error", s!"json: {e}")]).compress
  | .ok j =>
    match j.getObjVal? "op" with
    | .ok (.str "front") =>
      match j.getObjVal? "facts" >>= parseFacts with
      | .ok f => (frontToJson f (front f)).compress
      | .error e => (Json.mkObj [("error", s!"facts: {e}")]).compress
    | .ok (.str "run") =>
      match handleRun j with
      | .ok r => r.compress
      | .error e => (Json.mkObj [("error", s!"run: {e}")]).compress
    | .ok (.str "pm") =>
      match handlePM j with
      | .ok r => r.compress
      | .error e => (Json.mkObj [("error", s!"pm: {e}")]).compress
    | .ok (.str "ident") =>
      match handleIdent j with
      | .ok r => r.compress
      | .error e => (Json.mkObj [("error", s!"ident: {e}")]).compress
    | _ => (Json.mkObj [("error", "unknown op")]).compress

partial def loop (h : IO.FS.Stream) (out : IO.FS.Stream) : IO Unit := do
  let line ← h.getLine
  if line.isEmpty then return ()
  if line.trimAscii.isEmpty then loop h out else
  out.putStrLn (handle line)
  out.flush
  loop h out

def main : IO Unit := do
  loop (← IO.getStdin) (← IO.getStdout)
