import Convergen.Model.Basic
import Convergen.Model.GModel
import Convergen.Model.Render
import Convergen.Bridge.Render
