#!/usr/bin/env python3
"""Regenerates /verif/MANIFEST.json from checklib/props.py (so the two never drift apart)."""
import json
import os
import sys

HERE = os.path.dirname(os.path.abspath(__file__))
sys.path.insert(0, HERE)
from props import PROPS, LEVEL_TEXT, NOT_APPLICABLE  # noqa: E402

VERIF = os.path.dirname(HERE)
ids = [json.loads(l)["id"] for l in open(os.path.join(VERIF, "properties.jsonl"))]

checks = []
for pid in ids:
    if pid not in PROPS:
        continue
    cfg = PROPS[pid]
    checks.append({
        "property_id": pid,
        "quick_cmd": "./check %s quick" % pid,
        "thorough_cmd": "./check %s thorough" % pid,
        "evidence_file": "/verif/evidence/%s.json" % pid,
        "replay_cmd_template": "./check %s --replay {path}" % pid,
        "engine": "lean4-model+correspondence",
        "level_claimed": {
            "category": "proof",
            "text": LEVEL_TEXT.get(pid, cfg.get("explanation", "")),
            "design_ref": "DESIGN.md §4 %s and §8.4" % pid,
        },
        "level_note": "Trusted: Lean 4.33 kernel (axioms propext, Classical.choice, Quot.sound only); the Go-subset->Lean translator "
                      "(tools/cmd/extract); the harness (generator, go/types fact extraction, summariser, comparison); Go toolchain as "
                      "oracle/judge. The hand-written model of pkg/parser, pkg/option, pkg/builder, pkg/util, pkg/config, pkg/runner is "
                      "tied to the code three ways on every check, not verified line by line: decision skeletons of 31 functions "
                      "regenerated from the Go source and proved equal to the model's functions (Bridge/Dec), fingerprints of the "
                      "modelled functions, and differential runs against the built CLI. "
                      + "; ".join(cfg.get("assumptions", [])),
        "technique": "machine-checked proof in Lean 4 over an executable model; model parts regenerated on every run (renderers, node "
                     "expressions, tables, decision skeletons) and tied by Bridge theorems, the rest tied by differential "
                     "correspondence with the built CLI on every run",
    })

manifest = {
    "version": 1,
    "setup_cmd": "./setup.sh",
    "hooks": {
        "guard": "verif",
        "enable": "go build -tags verif",
        "baseline_off_cmd": "cd /repo && GOFLAGS=-mod=mod GOPROXY=off GOSUMDB=off GOTOOLCHAIN=local go test -vet=off -count=1 ./...",
        "source_commits": HOOK_COMMITS if (HOOK_COMMITS := json.load(open(os.path.join(VERIF, "hooks.json")))["source_commits"]) is not None else [],
        "add_only": True,
    },
    "engines": [
        {"name": "lean4-model+correspondence", "path": "/verif/lean", "serves_properties": [c["property_id"] for c in checks],
         "kind_free_text": "Lean 4 lake project Convergen: Model (hand-written), Generated (regenerated from /repo by tools/cmd/extract), "
                           "Bridge (Generated = Model), Props (theorems per property), Driver (JSON-lines lean_exe); Go harness in /verif/tools"},
    ],
    "checks": checks,
    "notes": "./check <id> quick|thorough|--replay <file>; known findings in /verif/known_findings.json; seeded changes in /verif/seeded",
    "not_applicable": [{"property_id": pid, "reason": NOT_APPLICABLE.get(pid, "check not built yet in this session; not claimed")}
                       for pid in ids if pid not in PROPS],
}
json.dump(manifest, open(os.path.join(VERIF, "MANIFEST.json"), "w"), indent=1)
print("MANIFEST.json: %d checks, %d not_applicable" % (len(checks), len(manifest["not_applicable"])))
