"""Per-property configuration of ./check: Lean modules, Bridge modules, sweeps, judges."""
import json
import os
import shutil


# ------------------------------------------------------------------------------------------------
# sweeps

def _merge_distribution(results, d):
    for k, v in d.items():
        results["distribution"][k] = results["distribution"].get(k, 0) + v


def sweep_api(ctx, results):
    """C19: drive the exported matcher API in-process against the Lean model and the reference."""
    src = os.path.join(ctx["tools"], "apiharness")
    dst = os.path.join(ctx["scratch"], "apiharness")
    if not os.path.exists(dst):
        shutil.copytree(src, dst)
        gm = open(os.path.join(dst, "go.mod")).read().replace("=> /repo", "=> " + ctx["repo"])
        open(os.path.join(dst, "go.mod"), "w").write(gm)
        shutil.copy(os.path.join(ctx["repo"], "go.sum"), os.path.join(dst, "go.sum"))
        rc, out = ctx["run"](["go", "build", "-tags", "verif", "-o", os.path.join(dst, "apiharness"), "."], cwd=dst)
        if rc != 0:
            results["notes"].append("apiharness does not build against /repo: " + out[-1500:])
            results["disagreements"].append({"case": "apiharness-build", "diffs": [out[-800:]]})
            return
    binp = os.path.join(dst, "apiharness")
    outp = os.path.join(ctx["scratch"], "api-%d.json" % ctx["widen"])
    if ctx.get("replay"):
        cmd = [binp, "-driver", ctx["driver"], "-replay", ctx["replay"], "-out", outp]
    else:
        n = 4000 if ctx["tier"] == "quick" else 150000
        n *= ctx["widen"]
        cmd = [binp, "-driver", ctx["driver"], "-seed", str(ctx["seed"]), "-n", str(n), "-out", outp, "-exhaustive"]
    rc, out = ctx["run"](cmd)
    ctx["log"](out.strip())
    if rc != 0 or not os.path.exists(outp):
        results["notes"].append("apiharness failed: " + out[-1500:])
        results["disagreements"].append({"case": "apiharness-run", "diffs": [out[-800:]]})
        return
    s = json.load(open(outp))
    results["evaluations"] += s["ops"]
    results["distinct_nontrivial"] += s["distinct"]
    results["traces"] += s["scripts"]
    results["exhaustive"] = results["exhaustive"] or s.get("exhaustive", False)
    _merge_distribution(results, s.get("classes", {}))
    results["samples"] += s.get("samples") or []
    for d in (s.get("disagreements") or [])[:20]:
        rp = os.path.join(ctx["replays"], "disagree-%s.json" % d["key"])
        json.dump(d, open(rp, "w"), indent=1)
        results["disagreements"].append({"case": d["key"], "replay": rp, "diffs": [d["what"], "impl=%s model=%s" % (d["impl"], d["model"])]})
    seen = set()
    for v in s.get("violations") or []:
        if v["key"] in seen:
            continue
        seen.add(v["key"])
        rp = os.path.join(ctx["replays"], "violation-%s.json" % v["key"].replace("|", "_"))
        json.dump(v, open(rp, "w"), indent=1)
        results["judgements"].append({"property": "C19", "key": v["key"], "what": v["what"], "replay": rp})


def sweep_front(profile, n_quick, n_thorough, cats=None, corpus=None, compile=False):
    """model vs CLI on generated setup files; `cats` filters which kinds of difference matter"""
    def f(ctx, results):
        outp = os.path.join(ctx["scratch"], "front-%s-%d.json" % (profile, ctx["widen"]))
        n = (n_quick if ctx["tier"] == "quick" else n_thorough) * ctx["widen"]
        cmd = [ctx["harness"], "sweep", "-cli", ctx["cli"], "-driver", ctx["driver"], "-n", str(n), "-seed", str(ctx["seed"]),
               "-profile", profile, "-replays", ctx["replays"], "-out", outp, "-prop", ctx["pid"]]
        cdir = os.path.join(ctx["verif"], "corpus", corpus or ctx["pid"])
        if os.path.isdir(cdir):
            cmd += ["-corpus", cdir]
        if ctx.get("replay"):
            if not _is_case_file(ctx["replay"]):
                return  # a replay of another kind of sweep (runner scenario, history): nothing to run here
            cmd += ["-only", ctx["replay"]]
        if compile:
            cmd += ["-compile"]
        rc, out = ctx["run"](cmd, cwd=ctx["scratch"])
        ctx["log"](out.strip()[-2000:])
        if not os.path.exists(outp):
            results["notes"].append("front sweep failed: " + out[-1500:])
            results["disagreements"].append({"case": "sweep-run", "diffs": [out[-800:]]})
            return
        s = json.load(open(outp))
        results["evaluations"] += s["cases"]
        results["distinct_nontrivial"] += min(s.get("nonTrivial", 0), s.get("distinctBodies", 0))
        results["traces"] += s["agree"]
        _merge_distribution(results, {"feature:" + k: v for k, v in (s.get("features") or {}).items()})
        _merge_distribution(results, {"cli:" + k: v for k, v in (s.get("cliClasses") or {}).items()})
        _merge_distribution(results, {"error:" + k: v for k, v in (s.get("errorKinds") or {}).items()})
        _merge_distribution(results, {"skipped:" + k: v for k, v in (s.get("skipped") or {}).items()})
        results["samples"] += (s.get("samples") or [])[:2]
        for d in s.get("disagreements") or []:
            dc = d.get("cats") or []
            if cats is None or not dc or set(dc) & set(cats):
                results["disagreements"].append(d)
        for j in s.get("judgements") or []:
            results["judgements"].append(j)
    return f


def sweep_runner(ctx, results):
    """C13/C15/C17/C18: flags x path spellings x output-path states through the CLI, against Model/Runner and the judges"""
    outp = os.path.join(ctx["scratch"], "runner-%d.json" % ctx["widen"])
    bases = (6 if ctx["tier"] == "quick" else 30) * (2 if ctx["widen"] > 1 else 1)
    cmd = [ctx["harness"], "runner", "-cli", ctx["cli"], "-driver", ctx["driver"], "-prop", ctx["pid"], "-bases", str(bases),
           "-seed", str(ctx["seed"]), "-replays", ctx["replays"], "-out", outp]
    if ctx["tier"] == "thorough":
        cmd.append("-thorough")
    rc, out = ctx["run"](cmd, cwd=ctx["scratch"])
    ctx["log"](out.strip()[-1500:])
    _take_summary(ctx, results, outp, out)


def sweep_history(ctx, results):
    """C12 (and, for acceptance only, C03): stale / truncated / broken content at the output path, edit-run histories"""
    outp = os.path.join(ctx["scratch"], "history-%d.json" % ctx["widen"])
    bases = (2 if ctx["tier"] == "quick" else 6) * (2 if ctx["widen"] > 1 else 1)
    cmd = [ctx["harness"], "history", "-cli", ctx["cli"], "-bases", str(bases), "-seed", str(ctx["seed"]),
           "-replays", ctx["replays"], "-out", outp, "-prop", ctx["pid"] if ctx["pid"] in ("C03", "C12") else "C12"]
    if ctx["tier"] == "thorough":
        cmd.append("-thorough")
    rc, out = ctx["run"](cmd, cwd=ctx["scratch"])
    ctx["log"](out.strip()[-1500:])
    _take_summary(ctx, results, outp, out)


def _take_summary(ctx, results, outp, out):
    if not os.path.exists(outp):
        results["notes"].append("sweep failed: " + out[-1500:])
        results["disagreements"].append({"case": "sweep-run", "diffs": [out[-800:]]})
        return
    s = json.load(open(outp))
    results["evaluations"] += s["cases"]
    results["distinct_nontrivial"] += s.get("nonTrivial", 0)
    results["traces"] += s["agree"]
    _merge_distribution(results, {"feature:" + k: v for k, v in (s.get("features") or {}).items()})
    _merge_distribution(results, {"cli:" + k: v for k, v in (s.get("cliClasses") or {}).items()})
    results["samples"] += (s.get("samples") or [])[:2]
    for d in s.get("disagreements") or []:
        results["disagreements"].append(d)
    for j in s.get("judgements") or []:
        results["judgements"].append(j)


def sweep_runtime(n_quick, n_thorough):
    """C02/C07/C10/C16: compile generated functions with instrumented user functions and execute them"""
    def f(ctx, results):
        outp = os.path.join(ctx["scratch"], "runtime-%d.json" % ctx["widen"])
        n = (n_quick if ctx["tier"] == "quick" else n_thorough) * ctx["widen"]
        cmd = [ctx["harness"], "runtime", "-cli", ctx["cli"], "-driver", ctx["driver"], "-n", str(n), "-seed", str(ctx["seed"]),
               "-prop", ctx["pid"], "-replays", ctx["replays"], "-out", outp]
        if ctx.get("replay") and _is_case_file(ctx["replay"]):
            cmd += ["-only", ctx["replay"]]
        cdir = os.path.join(ctx["verif"], "corpus", ctx["pid"])
        if os.path.isdir(cdir):
            cmd += ["-corpus", cdir]
        rc, out = ctx["run"](cmd, cwd=ctx["scratch"])
        ctx["log"](out.strip()[-1500:])
        _take_summary(ctx, results, outp, out)
    return f


def _is_case_file(path):
    try:
        j = json.load(open(path))
        return isinstance(j, dict) and "files" in j and "setup" in j
    except (ValueError, OSError):
        return False


RUNTIME_RULE = ("; run-time part: struct pairs with instrumented getters, converters and hooks (call trace, fault plan), generated "
                "functions compiled and executed on 5 value variants (all present, nil nested pointers, nil slices/maps, empty/zero, "
                "extreme scalars + sub-slices of shared backing arrays) and under every single and pairwise fault plan; judged from "
                "outside: no panic, source and arguments unmodified, unassigned destination leaves unchanged/zero, fresh slice storage, "
                "hook order/operands, first failing call site returned and nothing called after it")

RUNNER_RULE = ("the built CLI as a black box: %s; the whole scratch module is hashed before and after every run; the Lean runner "
               "model predicts exit status, stdout and the set of files written, with `core` instantiated by a reference -dry -print "
               "run in a pristine copy; distinct = distinct (core result class, flag set, output-path state, cwd) tuples")

# ------------------------------------------------------------------------------------------------
# properties

FRONT_RULE = ("generated setup files (struct pairs over a type alphabet of basic/named/pointer/slice/map/chan/func/interface/"
              "struct/imported types, getters, converters, hooks, notations drawn from the documented grammar; profile '%s') run "
              "through the built CLI and through the Lean model on facts extracted with go/types; compared: exit class, stderr "
              "lines, gofmt-canonical text of every generated function; distinct = distinct generated function texts, "
              "non-trivial = cases with >=3 generator features or a warning/error branch")

SPEC_RULE = ("; specification judge (independent of the model): the property's relation is evaluated on the implementation's "
             "output from the go/types facts and the notations written in the setup file (rule applications are counted in the "
             "distribution as rule-applied:*)")

# hand-modelled Go source per property (prefixes of "<file>:<receiver>.<func>" keys of the extracted fingerprints)
F_BUILDER = ["pkg/builder/assignment.go", "pkg/builder/model/node.go", "pkg/builder/model/struct.go", "pkg/builder/model/util.go",
             "pkg/util/types.go"]
F_METHOD = ["pkg/builder/method.go", "pkg/builder/model/method.go", "pkg/util/import.go"]
F_HOOKS = ["pkg/builder/postprocess.go"]
F_NOTATION = ["pkg/parser/comment.go", "pkg/option/"]
F_PARSER = ["pkg/parser/parser.go", "pkg/parser/interface.go", "pkg/parser/method.go", "pkg/util/ast.go"]
F_RUNNER = ["main.go", "pkg/config/config.go", "pkg/runner/runner.go", "pkg/generator/generator.go"]
MODELLED = {
    "C01": F_BUILDER + F_METHOD + F_HOOKS + ["pkg/parser/parser.go:Parser.Parse"],
    "C02": F_BUILDER + F_METHOD,
    "C03": F_PARSER + F_RUNNER + F_METHOD + F_HOOKS + ["pkg/parser/comment.go"],
    "C04": F_BUILDER + ["pkg/option/option.go", "pkg/parser/interface.go", "pkg/parser/method.go", "pkg/parser/comment.go"],
    "C05": F_BUILDER + ["pkg/logger/logger.go"],
    "C06": F_BUILDER + F_NOTATION,
    "C07": ["pkg/builder/assignment.go", "pkg/builder/model/node.go", "pkg/builder/model/struct.go", "pkg/builder/method.go",
            "pkg/builder/model/method.go", "pkg/parser/comment.go"] + F_HOOKS,
    "C08": F_METHOD + ["pkg/parser/method.go", "pkg/parser/comment.go"],
    "C09": F_PARSER + ["pkg/parser/comment.go", "pkg/option/option.go", "pkg/option/pattern_matcher.go"],
    "C10": F_HOOKS + ["pkg/parser/comment.go", "pkg/builder/method.go", "pkg/parser/parser.go:importNamesOf", "pkg/util/import.go",
            "pkg/generator/manipulator.go"],
    "C11": F_PARSER,
    "C12": ["pkg/parser/parser.go"] + F_RUNNER,
    "C13": F_RUNNER + ["pkg/util/import.go", "pkg/parser/parser.go", "pkg/logger/logger.go"],
    "C14": F_PARSER + F_NOTATION + F_BUILDER + ["pkg/builder/method.go", "pkg/util/import.go"] + F_HOOKS,
    "C15": F_RUNNER + ["pkg/parser/parser.go:NewParser", "pkg/parser/parser.go:overlayForPreviousOutput"],
    "C16": ["pkg/builder/assignment.go:assignmentBuilder.sliceToSlice", "pkg/builder/assignment.go:assignmentBuilder.structFieldAndStruct",
            "pkg/util/types.go"],
    "C17": ["pkg/parser/interface.go", "pkg/parser/parser.go", "pkg/util/ast.go", "pkg/config/config.go:Config.ParseArgs"],
    "C18": F_RUNNER + ["pkg/logger/logger.go"],
    "C19": ["pkg/option/", "pkg/parser/comment.go:Parser.parseNotationInComments"],
}

RENDER = ["Convergen.Bridge.Render"]
TABLES = ["Convergen.Bridge.Tables"]
NODES = ["Convergen.Bridge.Nodes"]
def DEC(*names):
    """decision-skeleton bridge modules (one per group of Go functions, so that a change to one function breaks
    the obligations of the properties that depend on it and no others)"""
    return ["Convergen.Bridge.Dec." + n for n in names]

PROPS = {
    "C01": {
        "bridge": RENDER + TABLES + NODES + DEC("Cast", "Match", "Resolve", "Default", "Hooks", "Function", "Util", "Struct", "Types"),
        "extra_modules": ["Convergen.Props.C04", "Convergen.Props.C16"],
        "sweeps": [sweep_front("mixed", 160, 6000, cats=["body", "slice", "hook", "header", "errflow"], compile=True),
                   sweep_front("matching", 100, 3000, cats=["body", "slice"], compile=True),
                   sweep_front("notations", 60, 2000, cats=["body", "slice"], compile=True),
                   sweep_front("getters", 60, 2000, cats=["body", "slice"], compile=True),
                   sweep_front("selection", 60, 1500, cats=["body", "header"], compile=True),
                   sweep_front("errors", 60, 2000, cats=["body", "errflow"], compile=True),
                   sweep_front("runtime", 60, 2000, cats=["body", "errflow", "slice", "hook"], compile=True),
                   sweep_front("generics", 40, 1500, cats=["body", "slice", "header"], compile=True),
                   sweep_front("slices", 60, 2000, cats=["body", "slice"], compile=True),
                   sweep_front("hooks", 60, 2000, cats=["hook"], compile=True)],
        "rule": FRONT_RULE % "mixed" + "; judge: every emitted file is compiled in its package (go build -gcflags=-e, setup file excluded "
                "by its tag) and checked with gofmt -l",
        "explanation": "what castNode returns is assignable / a String() of a Stringer where string is assignable / a conversion between "
                       "convertible types (castNode_sound); slice statements only for assignable or (opted-in) convertible elements; "
                       "a converter argument is never a (value, error) call and its address is taken only when it has one "
                       "(convArg_sound); paths call only parameterless methods that are callable on their operand "
                       "(walkPath_calls_callable, getter_takes_no_parameters, C04.candidates_callable); partial: gofmt-cleanliness, import pruning and the printing "
                       "of carried-over declarations are go/printer / goimports behaviour, seen by the sweep only",
        "assumptions": ["Go's typing of the emitted fragment is judged by the compiler, not modelled (GoTyping is limited to castNode_sound and the slice decision)"],
    },
    "C02": {
        "bridge": RENDER + NODES + DEC("Cast", "Match", "Resolve", "Default", "Struct"),
        "extra_modules": ["Convergen.Props.BuilderInv", "Convergen.Props.Cover", "Convergen.Props.Rooted"],
        "sweeps": [sweep_runtime(60, 1500), sweep_front("nesting", 120, 3000, cats=["body", "slice"]),
                   sweep_front("scoping", 80, 2000, cats=["body", "slice"]),
                   sweep_front("notations", 80, 2000, cats=["body", "slice"])],
        "rule": FRONT_RULE % "nesting/scoping" + RUNTIME_RULE,
        "explanation": "abstract execution of the statement tree, for every result of structToStruct (all type tables, option sets, "
                       "depths): running the body equals performing its flattened writes; the write targets are pairwise unrelated members "
                       "of the destination (builder_writes_unrelated, from the covering theorem), so every assigned member ends up with "
                       "exactly what its own statement wrote (builder_assigns_source_value), every other member keeps its value "
                       "(builder_frame), all writes go to members reached from the destination operand (builder_writes_destination) and "
                       "every right-hand side is rooted in the source operand or an additional argument (Rooted.structToStruct_rooted); "
                       "the nil-nested-pointer panic is a listed finding; Go's semantics of the emitted fragment is validated by executing "
                       "the generated code on value variants, not proved",
        "assumptions": ["user-supplied getters, converters, String methods and hooks are side-effect-free and do not panic"],
    },
    "C03": {
        "bridge": TABLES + DEC("Function", "Parse", "Notation", "Conv"),
        "sweeps": [sweep_front("layout", 150, 6000, cats=["exit", "missing-func"]),
                   sweep_front("mixed", 100, 3000, cats=["exit", "missing-func"]),
                   sweep_front("hooks", 60, 2000, cats=["exit", "missing-func"]),
                   sweep_front("notations", 80, 2000, cats=["exit", "missing-func"]),
                   sweep_front("signatures", 60, 2000, cats=["exit", "missing-func"]),
                   sweep_front("selection", 60, 2000, cats=["exit", "missing-func"]),
                   sweep_front("imports", 60, 2000, cats=["exit", "missing-func"]), sweep_history],
        "rule": "well-formed setup files with unusual layouts (no comments, one-line interfaces, comments on brace lines, adjacent "
                "declarations, several interfaces, CRLF, no final newline, directives in both spellings, surrounding declarations of "
                "every kind) and well-formed notation mixes; judged: exit 0 and one function per method; distinct = distinct "
                "generated function texts",
        "explanation": "marker planting keeps every marker alone in its own comment group and the groups sorted, for all comment "
                       "layouts and any number of interfaces (plantAll_sane); the cut and the replacement yield prefix ++ functions "
                       "++ suffix (cut_spec, replace_spec); witness: the pre-repair insertion order merges the markers of a short "
                       "interface; partial: go/printer and goimports are outside the model",
        "assumptions": ["a 21-character nanoid does not occur in user text", "braces of different converter interfaces are at least 21 bytes apart (Go syntax of separately declared interfaces)"],
    },
    "C11": {
        "bridge": TABLES,
        "extra_modules": ["Convergen.Props.C03"],
        "sweeps": [sweep_front("layout", 200, 6000, cats=["doc"]),
                   sweep_front("selection", 60, 2000, cats=["doc"])],
        "rule": "layout-focused setup files (declarations of every kind around and between converter interfaces, doc/line/block "
                "comments in every position, both constraint spellings, go:generate lines); judged on the AST: every non-converter "
                "declaration present unchanged (code), every comment line except directives / converter docs / notation lines "
                "present, no directive in the output, function docs = non-notation lines of the method's own comment",
        "explanation": "a method's doc is the Doc of its own field, the package doc is never consumed (method_doc_is_own, "
                       "file_doc_never_used); extraction touches one group and removes exactly the notation lines; directive-only "
                       "groups become empty; cut/replace from C03; partial: text between declarations is go/printer's, unused "
                       "imports are goimports'",
        "assumptions": ["only the two documented spellings of the pure convergen constraint are claimed (compound constraints are outside the stated quantifier)"],
    },
    "C04": {
        "bridge": RENDER + TABLES + NODES + DEC("Cast", "Util", "Default", "Names"),
        "sweeps": [sweep_front("matching", 150, 4000, cats=["body", "slice", "stderr"]),
                   sweep_front("plain", 60, 3000, cats=["body", "slice", "stderr"]),
                   sweep_front("mixed", 60, 2000, cats=["body", "slice", "stderr"]),
                   # which conversions a method opted into: interface-level defaults, several interfaces in one file
                   sweep_front("scoping", 60, 2000, cats=["body", "slice", "stderr"])],
        "rule": FRONT_RULE % "matching" + SPEC_RULE,
        "explanation": "fieldDefault_spec: the default matcher returns `no match` exactly when every candidate (getters under :getter "
                       "first, then fields; none under :match none) yields nothing, otherwise the statement of the first candidate that "
                       "yields one; tryCand_some/tryCand_none: a candidate yields a statement iff it is accessible, has the same name under "
                       "the case rule and castNode accepts it / a slice copy applies / it is a struct pair with content; castNode_cases/"
                       "castNode_none: the candidate itself when assignable, String() only under :stringer, a conversion only under "
                       ":typecast; candidates_no_getter: no getter call without :getter; match_none_no_name_match.  The two former "
                       "deviations (#16, #27) were repaired in reedom/convergen and are kept as regression changes (seeded C04-m3, C04-m4)",
        "assumptions": ["go/types relations are oracle tables (WF of the facts is assumed, not proved)"],
    },
    "C05": {
        "bridge": RENDER + NODES + DEC("Match", "Default", "Struct"),
        "extra_modules": ["Convergen.Props.BuilderInv", "Convergen.Props.Cover"],
        "sweeps": [sweep_front("nesting", 120, 4000, cats=["body", "slice", "stderr"]),
                   sweep_front("plain", 80, 3000, cats=["body", "slice", "stderr"]),
                   sweep_front("imports", 80, 2000, cats=["body", "slice", "stderr"]),
                   sweep_front("mixed", 60, 2000, cats=["body", "slice", "stderr"])],
        "rule": FRONT_RULE % "nesting" + SPEC_RULE,
        "explanation": "Cover.covered_once: for every result of structToStruct, at every depth, every destination leaf reachable through "
                       "accessible members lies under exactly one line (on itself or on an enclosing member); marks_reachable: nothing else "
                       "is mentioned (so unexported members of imported types never are); marks_prefix_free: no member is written twice, "
                       "no line beneath another; lines_are_marks ties the marks to the rendered left-hand sides; every no-match carries "
                       "its positioned warning.  Assumption DistinctFields is evaluated by the driver on every input.  The former "
                       "dropped-nested-struct defect (#14) was repaired in reedom/convergen (seeded C05-m3 is its reverse)",
        "assumptions": ["go/types relations are oracle tables"],
    },
    "C06": {
        "bridge": RENDER + TABLES + NODES + DEC("Match", "Resolve", "Default", "Option", "Function", "Notation", "Conv", "Struct"),
        "sweeps": [sweep_front("notations", 160, 4000, cats=["body", "slice", "stderr"]),
                   sweep_front("nesting", 80, 2000, cats=["body", "slice", "stderr"]),
                   sweep_front("casefold", 60, 2000, cats=["body", "slice", "stderr"]),
                   sweep_front("scoping", 60, 2000, cats=["body", "slice", "stderr"])],
        "extra_modules": ["Convergen.Props.C04", "Convergen.Props.BuilderInv"],
        "rule": FRONT_RULE % "notations" + SPEC_RULE,
        "explanation": "precedence chain skip > conv > map > $n-map > literal > default proved clause by clause on matchField; "
                       "explicit lookups ignore the case rule; $1 is the source operand at every depth (templated_third); "
                       "whole_copy_only_if_nothing_beneath: the default matcher assigns a struct member as a whole only if no member "
                       "beneath it (through by-value struct members, any depth) matches :skip or is named by :conv/:map/:literal "
                       "(addressedBelow_false); specification judge on the implementation's output: skipped members are not assigned "
                       "directly or through an enclosing copy, :map/:literal members get exactly their source; the remaining corners "
                       "(explicit notation on the enclosing member, pointer members, member without a same-named source struct) are "
                       "listed findings with corpus inputs",
        "assumptions": ["the order of the chain in the Go source is pinned by Bridge.precedence_eq"],
    },
    "C07": {
        "bridge": RENDER + NODES + DEC("Cast", "Match", "Resolve", "Function", "Conv"),
        "sweeps": [sweep_front("errors", 150, 4000, cats=["errflow", "body", "hook", "exit"]),
                   sweep_front("hooks", 80, 2000, cats=["errflow", "hook", "exit"]), sweep_runtime(50, 1500)],
        "rule": FRONT_RULE % "errors",
        "explanation": "text level: a check follows every error-capable top-level assignment and every error-returning hook; "
                       "error hooks are rejected for methods without error result; witness: nested error-capable calls are unchecked",
        "assumptions": ["semantics of the emitted Go fragment (GoSem) is validated by the run-time driver, not proved about Go"],
    },
    "C08": {
        "bridge": RENDER + DEC("Function", "Types"),
        "sweeps": [sweep_front("signatures", 140, 3000, cats=["header", "missing-func", "exit"]),
                   sweep_front("imports", 80, 2000, cats=["header", "missing-func", "exit"]),
                   # one function per method also for methods a converter interface inherits
                   sweep_front("selection", 60, 2000, cats=["header", "missing-func", "exit"])],
        "rule": FRONT_RULE % "signatures",
        "explanation": "sigHead = documented header for every shape except receiver + return style + additional args (witness); "
                       "results as documented; names/pointer-ness preserved by createVar; illegal :reverse combinations rejected",
        "assumptions": [],
    },
    "C09": {
        "bridge": TABLES + ["Convergen.Bridge.IntfOpts"] + DEC("Parse", "Notation"),
        "sweeps": [sweep_front("scoping", 150, 4000)],
        "rule": FRONT_RULE % "scoping",
        "explanation": "a toggle line sets exactly its toggle (last writer wins), invalid-here notations are ignored, interface "
                       "level carries no lists; isolation: what parseMethod yields (options, diagnostics, failure) depends on the "
                       "parser state only through the method's own doc comment (parseMethod_local), parsing a method touches no "
                       "other comment group or doc pointer (parseMethod_frame), hence a method parsed after any other contributes "
                       "exactly what it contributes alone (method_isolated); every method starts from its interface's options",
        "assumptions": ["distinct interface methods have distinct doc nodes and comment groups (go/ast): evaluated by the driver on every input (methodsApart)"],
    },
    "C10": {
        "bridge": RENDER + DEC("Hooks"),
        "sweeps": [sweep_front("hooks", 200, 4000, cats=["hook", "exit", "errflow"]), sweep_runtime(50, 1500),
                   # hooks of imported packages: which package a qualifier means
                   sweep_front("imports", 40, 1500, cats=["hook", "exit"])],
        "rule": FRONT_RULE % "hooks",
        "explanation": "text order doc/signature/allocation/pre/assignments/post/return; call arguments dst, src, extra args in "
                       "order; adaptation correct where declared pointer-ness is the real one (witness for arg style by-value dst); "
                       "acceptance implies fitting operands and error shape",
        "assumptions": [],
    },
    "C12": {
        "bridge": DEC("Run"),
        "extra_modules": ["Convergen.Props.C15"],
        "sweeps": [sweep_history],
        "rule": "for accepted base cases: the previous output, every truncation of it (quick: the first 130 offsets + 30 random; "
                "thorough: all offsets), broken Go of the same package, garbage, an empty file, the output of an older/newer setup "
                "version left at the output path; then run twice; judged against the run in a clean copy (exit status, bytes); "
                "every step is distinct and non-trivial (non-empty history)",
        "explanation": "for every core that is a function of the visible world: worlds that differ only at the output path give the "
                       "same exit/stdout/stderr/bytes (run_ignores_output), repair after any leftover (repair), idempotence; partial: "
                       "what go list reads of the withheld file is outside the model and explored by the history sweep",
        "assumptions": ["core (go list .. gofmt) is a function of the file system with the output path withheld (checked by the history sweep, not proved)"],
    },
    "C13": {
        "bridge": DEC("Run"),
        "sweeps": [sweep_runner, sweep_front("imports", 60, 1500, cats=["body", "header", "exit", "stderr"])],
        "rule": RUNNER_RULE % "8 runs per accepted base case in fresh processes: relative / ./relative / absolute input path, cwd = module "
                "root or package directory, GOFILE; byte equality of output, exit status and canonical stderr across the repetitions",
        "explanation": "LookupPath is independent of the map iteration order when import names are pairwise distinct (witness for two "
                       "leftover `_` entries); NewImportNames is a function of the specs in source order; the run is a function of "
                       "(config, core, world); partial: go list / goimports / go/printer determinism is only observed",
        "assumptions": ["go list, goimports and go/printer are deterministic (observed by repetition only)",
                        "marker strings do not occur in user text"],
    },
    "C15": {
        "bridge": ["Convergen.Bridge.Tables"] + DEC("Run"),
        "sweeps": [sweep_runner],
        "rule": RUNNER_RULE % "accepted and rejected inputs x the 16 combinations of -dry/-print/-log/-out x path spellings (relative, "
                "./relative, absolute, package directory, GOFILE) x output-path states (absent, stale file, missing directory, "
                "directory at the path, other file name in a sub directory)",
        "explanation": "frame (no path but output and log changes), dirs unchanged, no log without -log, -dry and failed runs keep the "
                       "output path as it was, setup file untouched: for every core, config and world",
        "assumptions": ["os.WriteFile either writes the output path or leaves it (a partially failing write is OS-defined)"],
    },
    "C18": {
        "bridge": ["Convergen.Bridge.Tables"] + DEC("Run"),
        "extra_modules": ["Convergen.Props.C15"],
        "sweeps": [sweep_runner],
        "rule": RUNNER_RULE % "accepted inputs x the 16 flag combinations x path spellings (relative, ./relative, absolute, package "
                "directory, GOFILE) x output-path states; judged: code at the documented path, stdout = code under -print, log next "
                "to the output, nothing on stdout without -print",
        "explanation": "default output path / -out / GOFILE from parseArgs; -print mirrors the written (or would-be written) bytes on "
                       "every successful run; without -print nothing is added to stdout; -log neutral for the generate step",
        "assumptions": ["flag parsing is modelled for the four documented flags (the flag package itself is not)"],
    },
    "C14": {
        "bridge": TABLES + DEC("Hooks", "Function", "Run", "Parse", "Notation", "Util", "Resolve"),
        "sweeps": [sweep_front("malformed", 200, 6000, cats=["exit", "stderr"]),
                   sweep_front("mixed", 80, 3000, cats=["exit", "stderr"]),
                   sweep_front("plain", 40, 1500, cats=["exit", "stderr"]),
                   # wrongly shaped members named in source paths (methods without result, with parameters, with three results)
                   sweep_front("getters", 60, 2000, cats=["exit", "stderr"]),
                   sweep_front("hooks", 40, 1500, cats=["exit", "stderr"])],
        "rule": FRONT_RULE % "malformed",
        "explanation": "model functions are total; diagnostics of notation lines are positioned; crash sites of the notation "
                       "parser characterised exactly (hook lookup with <2 params; :literal with a Unicode blank)",
        "assumptions": [],
    },
    "C16": {
        "bridge": RENDER + DEC("Cast", "Default", "Types"),
        "sweeps": [sweep_front("slices", 150, 4000, cats=["slice", "body"]), sweep_runtime(50, 1500)],
        "rule": FRONT_RULE % "slices",
        "explanation": "sliceToSlice decision = spec; no converting loop without :typecast; text of the three statements "
                       "(nil guard, make of source length, copy/loop); witness: named slice types are not slices for the builder",
        "assumptions": [],
    },
    "C17": {
        "bridge": TABLES + DEC("Parse", "Run"),
        "sweeps": [sweep_front("selection", 150, 4000, cats=["missing-func", "exit", "stderr"]), sweep_runner],
        "rule": FRONT_RULE % "selection" + "; which file is the input (argument, else $GOFILE, also when both are given and differ): "
                "runs of the built CLI against Model/Runner, judged by where the functions of the input file's interfaces end up",
        "explanation": "entries are exactly visited objects satisfying isTargetIntf (interface, in setup file, named Convergen or "
                       "marked), in scope order; other files / non-interfaces never; no entry => rejected",
        "assumptions": [],
    },
    "C19": {
        "bridge": TABLES + DEC("Option", "Notation", "Names"),
        "sweeps": [sweep_api, sweep_front("casefold", 100, 3000, cats=["body", "slice"]),
                   # where a :skip line counts at all (methods only) and whose patterns a method's matchers are
                   sweep_front("scoping", 60, 1500, cats=["body", "slice"])],
        "rule": "operation sequences on one PatternMatcher / IdentMatcher / CompareFieldName with alternating case rule; "
                "random over pattern/path pools (mixed case, dots, non-ASCII, RE2 classes/escapes/anchors/alternation) plus the "
                "exhaustive small scope (all strings of length <=2 over {a,A,b,.,µ,Μ,ſ,s} as pattern and path, plain and /re/); "
                "distinct = distinct (pattern, path, case rule) triples; every triple is non-trivial (it yields an answer compared "
                "with the model and with ==/EqualFold/regexp/(?i))",
        "explanation": "T19.1 history independence by induction over the query list; plain patterns = equality / EqualFold under the "
                       "stated engine contracts; /re/ patterns reduce to the engine on the unchanged expression (+ (?i)); RE2 itself is not modelled (partial)",
        "assumptions": ["RE2 (Go regexp) satisfies AnchoredLiteralContract and FoldContract (checked against Go's regexp in the sweep, not proved)",
                        "the model's ToLower/fold tables cover ASCII and the listed non-ASCII letters; other runes are not generated"],
    },
}

# what assurance each check gives, in our own words (MANIFEST level_claimed.text)
PARTIAL = {
    "C01": "Go's typing of the emitted text is judged by compiling every emitted file (and gofmt -l), not proved; gofmt-cleanliness, import "
           "pruning and the printing of carried-over declarations are go/printer / goimports behaviour seen by the sweeps only",
    "C02": "what Go does when it executes the emitted statements (evaluation order, aliasing, nil dereference, conversions) is validated "
           "by running the generated functions on value variants, not proved",
    "C03": "acceptance by go list, goimports and go/printer is observed by the sweeps, not modelled; marker freshness is assumed",
    "C07": "the run-time behaviour of the emitted error checks is validated by executing the generated functions under fault plans",
    "C10": "call order and argument passing at run time are validated by executing the generated functions with instrumented hooks",
    "C11": "the printing of the carried-over declarations (go/printer) and import pruning (goimports) are observed, not modelled",
    "C12": "what go list / go/packages do with the content at the output path is observed on generated histories, not modelled",
    "C13": "go list, goimports and the printer are assumed deterministic; observed by repeated runs under changed cwd/env/time",
    "C14": "crashes or hangs inside the loader, goimports or the printer can only be observed; the model covers parser and builder",
    "C16": "freshness of the storage and nil-ness at run time are validated by executing the generated functions",
    "C19": "RE2 itself is an oracle (regexp.MatchString); the theorems are about how patterns are turned into expressions and applied",
}

for _pid, _pats in MODELLED.items():
    PROPS[_pid]["modelled"] = _pats

LEVEL_TEXT = {}
for _pid, _cfg in PROPS.items():
    _t = ("Theorems in Lean 4 about an executable model of convergen, for every input the property quantifies over "
          "(all type tables, option sets, notation lists, nesting depths, world states); the model is tied to /repo on every run: "
          "renderers and tables are regenerated from the Go source and proved equal to the model (Bridge), the hand-written parts "
          "are run against the built CLI on generated inputs and every difference is localised and judged. Proved: "
          + _cfg.get("explanation", "") + ".")
    if _pid in PARTIAL:
        _t += " PARTIAL: " + PARTIAL[_pid] + "."
    LEVEL_TEXT[_pid] = _t
NOT_APPLICABLE = {}
